"""Models of Python built-ins, container and string methods, and the
spec-only functions of the contract language."""
import ast
import z3
from .values import *
from .state import Unsupported, PathEnd, PyRaise, fresh, fresh_name
from .common import *
from . import models


class BuiltinsMixin:
    # ------------------------------------------------------------------
    # python builtins
    # ------------------------------------------------------------------
    def bi_len(self, args, kw, st, fr):
        return VInt(self.length(args[0], st))

    def bi_print(self, args, kw, st, fr):
        return NONE

    def bi_abs(self, args, kw, st, fr):
        x = self.as_int(args[0])
        return VInt(z3.If(x >= 0, x, -x))

    def bi_min(self, args, kw, st, fr):
        vals = args[0].items if len(args) == 1 and \
            isinstance(args[0], VTuple) else args
        r = self.as_int(vals[0])
        for v in vals[1:]:
            y = self.as_int(v)
            r = z3.If(y < r, y, r)
        return VInt(r)

    def bi_max(self, args, kw, st, fr):
        vals = args[0].items if len(args) == 1 and \
            isinstance(args[0], VTuple) else args
        r = self.as_int(vals[0])
        for v in vals[1:]:
            y = self.as_int(v)
            r = z3.If(y > r, y, r)
        return VInt(r)

    def bi_bool(self, args, kw, st, fr):
        return VBool(self.truth(args[0], st))

    def bi_int(self, args, kw, st, fr):
        v = args[0]
        if isinstance(v, (VInt, VBool)):
            return VInt(self.as_int(v))
        if isinstance(v, VStr):
            self.uni.note_assumption("int(str) modelled by z3 str.to_int "
                                     "(non-negative decimal strings only)")
            return VInt(z3.StrToInt(v.e))
        raise Unsupported(f"int({v})")

    def bi_str(self, args, kw, st, fr):
        v = args[0]
        if isinstance(v, VStr):
            return v
        if isinstance(v, VInt):
            return VStr(z3.If(v.e >= 0, z3.IntToStr(v.e),
                              z3.Concat(z3.StringVal("-"),
                                        z3.IntToStr(-v.e))))
        if isinstance(v, VRef):
            # str(obj) is a function of the object
            return VStr(self.uni.uf("str_of", ["ref"], "str")(v.e))
        return VStr(fresh("str", STR))

    def bi_isinstance(self, args, kw, st, fr):
        obj, cls = args
        classes = cls.items if isinstance(cls, VTuple) else [cls]
        conds = []
        for c in classes:
            name = c.name if isinstance(c, VClass) else \
                (c.name if isinstance(c, VFunc) else None)
            if name is None:
                raise Unsupported(f"isinstance against {c}")
            conds.append(self.isinstance1(obj, name, st))
        return VBool(z3.Or(conds) if len(conds) > 1 else conds[0])

    def isinstance1(self, obj, name, st):
        prim = {"int": (VInt, VBool), "str": (VStr,), "bool": (VBool,),
                "tuple": (VTuple,)}
        if name in prim:
            return z3.BoolVal(isinstance(obj, prim[name]))
        if isinstance(obj, VNone):
            return z3.BoolVal(False)
        if isinstance(obj, VRef):
            if name == "list":
                return z3.BoolVal(obj.cls == "list" or obj.elem is not None)
            if name in ("set", "dict"):
                return z3.BoolVal(obj.cls == name)
            if obj.cls in ("list", "set", "dict"):
                return z3.BoolVal(False)
            return z3.And(obj.e != NULL,
                          self.uni.isinstance_expr(obj.e, name))
        if isinstance(obj, VTerm):
            return z3.BoolVal(self.uni.repo.is_subclass(obj.ctor, name))
        if isinstance(obj, (VInt, VBool, VStr, VTuple, VEnum, VPy)):
            return z3.BoolVal(False)
        raise Unsupported(f"isinstance({obj}, {name})")

    def bi_typeis(self, args, kw, st, fr):
        """spec: exact dynamic class"""
        return VBool(TYPE_OF(args[0].e) ==
                     self.uni.class_id(self.concrete(args[1])))

    def bi_type(self, args, kw, st, fr):
        return VFunc("classof", recv=args[0])

    def bi_id(self, args, kw, st, fr):
        return args[0]

    def bi_range(self, args, kw, st, fr):
        ints = [self.as_int(a) for a in args]
        if len(ints) == 1:
            return VPy(("range", z3.IntVal(0), ints[0], z3.IntVal(1)))
        if len(ints) == 2:
            return VPy(("range", ints[0], ints[1], z3.IntVal(1)))
        return VPy(("range", ints[0], ints[1], ints[2]))

    def bi_enumerate(self, args, kw, st, fr):
        return VPy(("enumerate", args[0]))

    def bi_zip(self, args, kw, st, fr):
        return VPy(("zip", list(args)))

    def bi_reversed(self, args, kw, st, fr):
        return VPy(("reversed", args[0]))

    def bi_tuple(self, args, kw, st, fr):
        if not args:
            return VTuple([])
        if isinstance(args[0], VTuple):
            return args[0]
        raise Unsupported("tuple() of symbolic iterable")

    def bi_list(self, args, kw, st, fr):
        if not args:
            lst = self.alloc(st, "list", None, "lst")
            st.write("$len", lst.e, z3.IntVal(0), "int")
            return lst
        src = args[0]
        if isinstance(src, VRef) and src.elem is not None and \
                src.cls != "dict" and src.cls != "set":
            new = self.alloc(st, "list", src.elem, "lcopy")
            self.set_list(new, st, self.list_items(src, st),
                          self.length(src, st))
            return new
        if isinstance(src, VTuple):
            return self.ev_List(ast.List(elts=[]), st, fr) if not src.items \
                else self.list_from(src.items, st)
        if isinstance(src, VRef) and src.cls == "set" and \
                src.elem is not None:
            # list(a_set): the members in some order
            kb = base_tag(src.elem)
            lst = self.alloc(st, "list", src.elem, "fromset")
            arr = fresh("fromset_items", z3.ArraySort(INT, sort_of(kb)))
            n = self.card(src, st)
            self.set_list(lst, st, arr, n)
            i = z3.Int(fresh_name("i"))
            st.assume(z3.ForAll([i], z3.Implies(
                z3.And(0 <= i, i < n),
                z3.Select(self.s_arr(src, st), arr[i]))))
            return lst
        if isinstance(src, VPy) and isinstance(src.obj, tuple) and src.obj \
                and src.obj[0] in ("dictitems", "dictkeys", "dictvalues"):
            # a list made from a dict view: iteration / membership over a
            # snapshot copy of the dict (the order is not modelled)
            d = src.obj[1]
            if d.elem is None:
                return self.bi_list([], kw, st, fr)
            snap = self.dictop(d, "copy", [], {}, st, fr)
            return VPy((src.obj[0], snap))
        raise Unsupported(f"list({src})")

    def list_from(self, vals, st):
        elem = vals[0].cls if isinstance(vals[0], VRef) else vals[0].tag
        lst = self.alloc(st, "list", elem or "ref", "lst")
        arr = z3.K(INT, self.to_z3(vals[0]))
        for i, v in enumerate(vals):
            arr = z3.Store(arr, i, self.to_z3(v))
        self.set_list(lst, st, arr, z3.IntVal(len(vals)))
        return lst

    def bi_any(self, args, kw, st, fr):
        return self.quant_gen(args[0], st, fr, exists=True)

    def bi_all(self, args, kw, st, fr):
        return self.quant_gen(args[0], st, fr, exists=False)

    def quant_gen(self, arg, st, fr, exists):
        """any()/all() over a generator expression with one `for` and a
        pure element predicate: an index-quantified formula.  The element
        expression is evaluated in spec mode (no exceptions, no effects)."""
        if isinstance(arg, VRef) and arg.elem is not None and \
                arg.cls == "list":
            # any(lst) / all(lst): truthiness of the elements
            n, elem, conc = self.iter_desc(arg, st, fr)
            if conc is not None:
                cs = [self.truth(x, st) for x in conc]
                if exists:
                    return VBool(z3.Or(cs) if cs else z3.BoolVal(False))
                return VBool(z3.And(cs) if cs else z3.BoolVal(True))
            q = z3.Int(fresh_name("q"))
            rng = z3.And(0 <= q, q < n)
            t = self.truth(elem(q), st)
            # the instance q = 0 is stated explicitly (logically redundant)
            t0 = self.truth(elem(z3.IntVal(0)), st)
            if exists:
                return VBool(z3.Or(z3.And(n > 0, t0),
                                   z3.Exists([q], z3.And(rng, t))))
            return VBool(z3.And(z3.Implies(n > 0, t0),
                                z3.ForAll([q], z3.Implies(rng, t))))
        if not (isinstance(arg, VPy) and isinstance(arg.obj, tuple)
                and arg.obj[0] == "ast"):
            raise Unsupported("any/all of a non-generator")
        gen, gfr = arg.obj[1], arg.obj[2]
        if not isinstance(gen, ast.GeneratorExp) or len(gen.generators) != 1:
            raise Unsupported("any/all generator shape")
        comp = gen.generators[0]
        it = self.ev(comp.iter, st, gfr)
        n, elem, conc = self.iter_desc(it, st, gfr)
        self.uni.note_assumption(
            "generator bodies inside any()/all() are evaluated as pure, "
            "exception-free expressions")

        def body(x):
            env = dict(gfr.env)
            self.assign_env(comp.target, x, env)
            sub = Frame(gfr.func, gfr.cls, gfr.contract, env=env, spec=True)
            sub.old = gfr.old
            sub.self_val = gfr.self_val
            c = self.truth(self.ev(gen.elt, st, sub), st)
            for cond in comp.ifs:
                g = self.truth(self.ev(cond, st, sub), st)
                c = z3.And(g, c) if exists else z3.Implies(g, c)
            return c
        if conc is not None:
            cs = [body(x) for x in conc]
            if exists:
                return VBool(z3.Or(cs) if cs else z3.BoolVal(False))
            return VBool(z3.And(cs) if cs else z3.BoolVal(True))
        q = z3.Int(fresh_name("q"))
        rng = z3.And(0 <= q, q < n)
        if exists:
            return VBool(z3.Exists([q], z3.And(rng, body(elem(q)))))
        return VBool(z3.ForAll([q], z3.Implies(rng, body(elem(q)))))

    def bi_sorted(self, args, kw, st, fr):
        """sorted(<keys of a dict>, key=...) : a fresh list whose elements
        are keys of the dict and whose length is the dict's size.  The
        *order* is not modelled (callers here only take an element)."""
        src = args[0]
        cont = None
        if isinstance(src, VPy) and isinstance(src.obj, tuple) and \
                src.obj[0] == "ast":
            gen, gfr = src.obj[1], src.obj[2]
            if isinstance(gen, ast.GeneratorExp) and \
                    len(gen.generators) == 1 and \
                    not gen.generators[0].ifs and \
                    isinstance(gen.elt, ast.Name) and \
                    isinstance(gen.generators[0].target, ast.Name) and \
                    gen.elt.id == gen.generators[0].target.id:
                it = self.ev(gen.generators[0].iter, st, gfr)
                un = self.unordered_desc(it, st, gfr)
                if un and un[1] in ("keys", "elems"):
                    cont = un[0]
        else:
            un = self.unordered_desc(src, st, fr)
            if un and un[1] in ("keys", "elems"):
                cont = un[0]
        if cont is None:
            raise Unsupported("sorted() of this iterable")
        self.uni.note_assumption(
            "sorted(keys, key=...) returns a list of exactly the keys; the "
            "order produced by the key function is not modelled")
        ktag = self.key_tag(cont)
        lst = self.alloc(st, "list", ktag, "sorted")
        arr = fresh("sorted_items", z3.ArraySort(INT, sort_of(base_tag(ktag))))
        n = self.card(cont, st)
        self.set_list(lst, st, arr, n)
        i = z3.Int(fresh_name("i"))
        mem = self.members(cont, st)
        st.assume(z3.ForAll([i], z3.Implies(z3.And(0 <= i, i < n),
                                            z3.Select(mem, arr[i]))))
        return lst

    def bi_select_set(self, args, kw, st, fr):
        """spec: the contents of a set object as a value (comparable by ==)"""
        o = args[0]
        return VPy(("zset", self.s_arr(o, st), o.elem))

    def bi_select_list(self, args, kw, st, fr):
        """spec: the contents of a list object as a value (items + length)"""
        o = args[0]
        return VPy(("zdict", self.list_items(o, st), self.length(o, st)))

    def bi_select_dict(self, args, kw, st, fr):
        """spec: the contents of a dict object as a value (keys + map)"""
        o = args[0]
        return VPy(("zdict", self.d_dom(o, st), self.d_map(o, st)))

    def bi_card(self, args, kw, st, fr):
        return VInt(self.card(args[0], st))

    def bi_set(self, args, kw, st, fr):
        if args:
            src = args[0]
            un = self.unordered_desc(src, st, fr)
            if un is not None and un[1] in ("keys", "elems") and \
                    un[0].elem is not None:
                cont = un[0]
                new = self.alloc(st, "set", self.key_tag(cont), "set")
                self.s_set(new, st, self.members(cont, st))
                st.write("$card", new.e, st.read("$card", cont.e, "int"),
                         "int")
                return new
            raise Unsupported("set(iterable)")
        obj = self.alloc(st, "set", None, "set")
        st.write("$card", obj.e, z3.IntVal(0), "int")
        return obj

    def bi_dict(self, args, kw, st, fr):
        if args or kw:
            raise Unsupported("dict(...)")
        obj = self.alloc(st, "dict", None, "dict")
        st.write("$card", obj.e, z3.IntVal(0), "int")
        return obj

    def bi_hasattr(self, args, kw, st, fr):
        """hasattr(obj, 'name') depends only on the dynamic class"""
        name = self.concrete(args[1])
        f = self.uni.uf("has_attr_" + name, ["int"], "bool")
        if isinstance(args[0], VRef):
            return VBool(f(TYPE_OF(args[0].e)))
        raise Unsupported("hasattr on non-object")

    # -- spec-only helpers ----------------------------------------------
    def bi_implies(self, args, kw, st, fr):
        return VBool(z3.Implies(self.truth(args[0], st),
                                self.truth(args[1], st)))

    def bi_iff(self, args, kw, st, fr):
        return VBool(self.truth(args[0], st) == self.truth(args[1], st))

    def bi_ite(self, args, kw, st, fr):
        c = self.truth(args[0], st)
        a, b = args[1], args[2]
        if isinstance(a, VNone):
            a = VRef(NULL, getattr(b, "cls", None))
        if isinstance(b, VNone):
            b = VRef(NULL, getattr(a, "cls", None))
        r = z3.If(c, self.to_z3(a), self.to_z3(b))
        if isinstance(a, VRef):
            return VRef(r, a.cls, a.elem)
        return wrap(r)

    def bi_norm(self, args, kw, st, fr):
        return VInt(models.norm_index(self.as_int(args[0]),
                                      self.as_int(args[1])))

    def bi_fresh(self, args, kw, st, fr):
        """object was not allocated at function entry"""
        al = fr.old.field("$alloc", "bool")
        return VBool(z3.And(args[0].e != NULL,
                            z3.Not(z3.Select(al, args[0].e))))

    def bi_unchanged(self, args, kw, st, fr):
        """unchanged('field', ...) : heap field arrays equal to entry"""
        return VBool(self.unchanged_between(fr.old, st, args))

    def unchanged_between(self, old, st, args):
        """heap fields agree on every object allocated in `old` (plain array
        equality when nothing was allocated in between)."""
        conds = []
        no_alloc = "$alloc" not in st.heap or (
            "$alloc" in old.heap and st.heap["$alloc"].eq(old.heap["$alloc"]))
        x = z3.Const(fresh_name("o"), Ref)
        for a in args:
            name = self.concrete(a)
            tag = self.uni.field_tag(name) or st.heap_sorts.get(name)
            if tag is None and name not in st.heap:
                continue
            new, was = st.field(name, tag), old.field(name, tag)
            if no_alloc:
                conds.append(new == was)
            else:
                al = old.field("$alloc", "bool")
                conds.append(z3.ForAll([x], z3.Implies(
                    z3.Select(al, x),
                    z3.Select(new, x) == z3.Select(was, x))))
        return z3.And(conds) if conds else z3.BoolVal(True)

    def bi_unchanged_since_head(self, args, kw, st, fr):
        """loop invariants: heap fields equal to their value at loop head of
        the *first* iteration (= state when the loop was reached)"""
        head = getattr(fr, "entry_state", None)
        if head is None:
            raise Unsupported("unchanged_since_head outside a loop invariant")
        return VBool(self.unchanged_between(head, st, args))

    def bi_at_entry(self, args, kw, st, fr):
        raise Unsupported("at_entry")

    def bi_at(self, args, kw, st, fr):
        """at(list, i): raw element i of a list without bounds check"""
        lst, i = args
        return self.elem_val(lst, z3.Select(self.list_items(lst, st),
                                            self.as_int(i)))

    def bi_substr(self, args, kw, st, fr):
        s, a, n = args
        return VStr(z3.SubString(s.e, self.as_int(a), self.as_int(n)))

    def spec_quant(self, name, node, st, fr):
        lam = node.args[0]
        if not isinstance(lam, ast.Lambda):
            raise Unsupported("forall/exists need a lambda")
        tags = ["int"] * len(lam.args.args)
        if len(node.args) > 1:
            t = self.concrete(self.ev(node.args[1], st, fr))
            tags = [t] * len(tags) if isinstance(t, str) else list(t)
        env = dict(fr.env)
        bound = []
        for a, t in zip(lam.args.args, tags):
            c = z3.Const(fresh_name(a.arg), sort_of(base_tag(t)))
            bound.append(c)
            env[a.arg] = self.mkval(c, t)
        sub = Frame(fr.func, fr.cls, fr.contract, env=env, spec=True)
        sub.old, sub.result = fr.old, fr.result
        sub.entry_state = getattr(fr, "entry_state", None)
        sub.head_state = getattr(fr, "head_state", None)
        body = self.truth(self.ev(lam.body, st, sub), st)
        q = z3.ForAll(bound, body) if name == "forall" else \
            z3.Exists(bound, body)
        return VBool(q)

    # ------------------------------------------------------------------
    # containers
    # ------------------------------------------------------------------
    def contop(self, recv, name, args, kw, st, fr, builtin_only=False):
        if recv.cls == "set":
            return self.setop(recv, name, args, kw, st, fr)
        if recv.cls == "dict":
            return self.dictop(recv, name, args, kw, st, fr)
        if recv.elem is None and name in ("append", "extend", "insert") \
                and args:
            a0 = args[-1]
            recv.elem = a0.cls if isinstance(a0, VRef) else a0.tag
            if name == "extend":
                recv.elem = a0.elem
        items = self.list_items(recv, st)
        n = self.length(recv, st)
        if name == "append":
            self.set_list(recv, st, *models.list_append(
                items, n, self.to_z3(args[0])))
            return NONE
        if name == "__len__":
            return VInt(n)
        if name in ("pop", "__delitem__", "__getitem__"):
            idx = self.as_int(args[0]) if args else z3.IntVal(-1)
            if not self.dec.branch(st, models.in_range(idx, n)):
                raise PyRaise(VExc("IndexError"))
            k = models.norm_index(idx, n)
            res = self.elem_val(recv, z3.Select(items, k))
            if name != "__getitem__":
                self.set_list(recv, st, *models.list_pop(items, n, k))
            return res if name != "__delitem__" else NONE
        if name == "__setitem__":
            idx = self.as_int(args[0])
            if not self.dec.branch(st, models.in_range(idx, n)):
                raise PyRaise(VExc("IndexError"))
            k = models.norm_index(idx, n)
            self.set_list(recv, st, *models.list_set(
                items, n, k, self.to_z3(args[1])))
            return NONE
        if name == "insert":
            k = models.clamp_insert(self.as_int(args[0]), n)
            self.set_list(recv, st, *models.list_insert(
                items, n, k, self.to_z3(args[1])))
            return NONE
        if name == "extend":
            other = args[0]
            if isinstance(other, VTuple):
                other = self.list_from(other.items, st) if other.items \
                    else None
                if other is None:
                    return NONE
            if not (isinstance(other, VRef) and other.elem is not None):
                raise Unsupported(f"extend with {other}")
            self.set_list(recv, st, *models.list_extend(
                items, n, self.list_items(other, st),
                self.length(other, st)))
            return NONE
        if name == "reverse":
            self.set_list(recv, st, *models.list_reverse(items, n))
            return NONE
        if name == "clear":
            self.set_list(recv, st, items, z3.IntVal(0))
            return NONE
        if name == "copy":
            new = self.alloc(st, "list", recv.elem, "lcopy")
            self.set_list(new, st, items, n)
            return new
        if name in ("index", "remove"):
            # first position whose element == item (identity or __eq__)
            k = fresh("k", INT)
            item = args[0]
            j = z3.Int(fresh_name("j"))
            hit = lambda p: self.equal(self.elem_val(recv, items[p]), item, st)
            found = z3.Exists([j], z3.And(0 <= j, j < n, hit(j)))
            if not self.dec.branch(st, found):
                raise PyRaise(VExc("ValueError"))
            st.assume(z3.And(0 <= k, k < n, hit(k)))
            st.assume(z3.ForAll([j], z3.Implies(z3.And(0 <= j, j < k),
                                                z3.Not(hit(j)))))
            if name == "index":
                return VInt(k)
            self.set_list(recv, st, *models.list_pop(items, n, k))
            return NONE
        raise Unsupported(f"list.{name}")

    def pyop(self, recv, name, args, kw, st, fr):
        obj = recv.obj
        if isinstance(obj, tuple) and obj and obj[0] == "regex":
            if name == "match" and len(args) == 1 and \
                    isinstance(args[0], VStr):
                from .regex import match_prefix
                return VBool(match_prefix(obj[1], obj[2], args[0].e))
            raise Unsupported(f"regex method .{name}")
        if isinstance(obj, dict) and name in ("items", "keys", "values"):
            return VPy(list(getattr(obj, name)()))
        if isinstance(obj, dict) and name == "get":
            key = self.concrete(args[0])
            if key in obj:
                return self.lift(obj[key])
            return args[1] if len(args) > 1 else NONE
        raise Unsupported(f"method .{name} of constant {type(obj).__name__}")

    # ------------------------------------------------------------------
    # strings
    # ------------------------------------------------------------------
    WS = " \t\n\r\x0b\x0c"

    def strop(self, recv, name, args, kw, st, fr):
        s = recv.e
        n = z3.Length(s)
        if name in ("rfind", "find"):
            key = args[0].e
            lo = models.clamp_slice(self.as_int(args[1]), n) \
                if len(args) > 1 else z3.IntVal(0)
            hi = models.clamp_slice(self.as_int(args[2]), n) \
                if len(args) > 2 else n
            sub = z3.SubString(s, lo, z3.If(hi > lo, hi - lo, 0))
            if name == "rfind" and getattr(self.uni, "rfind_uf", False):
                # rfind as a function of its (clamped) arguments with its
                # defining facts instantiated at each call: found => the key
                # sits at r inside the window; not found => the window does
                # not contain the key.  (Right-most-ness is not stated.)
                f = self.uni.uf("str_rfind", ["str", "str", "int", "int"],
                                "int")
                r = f(s, key, lo, hi)
                kl = z3.Length(key)
                st.assume(z3.Or(
                    z3.And(r == -1, z3.Or(lo > hi,
                                          z3.Not(z3.Contains(sub, key)))),
                    z3.And(lo <= r, r + kl <= hi,
                           z3.SubString(s, r, kl) == key)))
                self.uni.note_assumption(
                    "str.rfind(key, lo, hi) is an uninterpreted function of "
                    "its clamped arguments with the facts: -1 iff the key "
                    "does not occur in the window, else the key occurs at "
                    "the returned index inside the window (right-most-ness "
                    "not used)")
                return VInt(r)
            pos = z3.LastIndexOf(sub, key) if name == "rfind" else \
                z3.IndexOf(sub, key, 0)
            # python: empty window and non-empty key -> -1 ; start > len -> -1
            r = z3.If(z3.And(lo <= hi, pos >= 0), pos + lo, -1)
            return VInt(r)
        if name in ("lstrip", "rstrip", "strip") and not args:
            return self.str_strip(recv, name, st)
        if name == "startswith":
            return VBool(z3.PrefixOf(args[0].e, s))
        if name == "endswith":
            return VBool(z3.SuffixOf(args[0].e, s))
        if name in ("lower", "upper"):
            f = self.uni.uf("str_" + name, ["str"], "str")
            r = f(s)
            self.uni.note_assumption(
                f"str.{name} is uninterpreted except: length-preserving and "
                f"idempotent")
            st.assume(z3.Length(r) == n)
            st.assume(f(r) == r)
            return VStr(r)
        if name == "split" and len(args) == 1 and isinstance(args[0], VStr):
            return self.str_split(recv, args[0], st)
        if name == "encode" and not args:
            # bytes are not modelled: the encoded text is the text
            self.uni.note_assumption("str.encode() is the identity")
            return recv
        if name == "format":
            # template.format(...) : an uninterpreted function of the
            # template and the (string) arguments, keywords in name order
            vals = list(args) + [kw[k] for k in sorted(kw)]
            if not all(isinstance(v, VStr) for v in vals):
                raise Unsupported("str.format with non-string arguments")
            f = self.uni.uf("str_format_" + "_".join(
                [str(len(args))] + sorted(kw)), ["str"] * (len(vals) + 1),
                "str")
            self.uni.note_assumption(
                "str.format is an uninterpreted function of the template "
                "and its arguments")
            return VStr(f(s, *[v.e for v in vals]))
        if name == "join" and getattr(self.uni, "join_uf", False) and \
                args and isinstance(args[0], VStr):
            # the joined sequence is abstracted to an opaque string value:
            # join is then a function of (separator, that value)
            f = self.uni.uf("str_join_opaque", ["str", "str"], "str")
            return VStr(f(s, args[0].e))
        if name == "join":
            self.uni.note_assumption(
                "str.join results are abstracted to arbitrary strings")
            return VStr(fresh("joined", STR))
        raise Unsupported(f"str.{name}")

    def str_split(self, recv, sep, st):
        """s.split(sep) for a non-empty separator: a list L with len >= 1,
        no element contains sep, and the ghost prefix function
        join_prefix(L, k) = L[0]+sep+...+L[k-1]+sep satisfies
        join_prefix(L, len(L)) == s + sep."""
        self.uni.note_assumption(
            "str.split(sep): assumed contract (elements do not contain sep; "
            "join_prefix(L,0)='' , join_prefix(L,k+1)=join_prefix(L,k)+L[k]+"
            "sep, join_prefix(L,len)=s+sep)")
        lst = self.alloc(st, "list", "str", "split")
        light = getattr(self.uni, "split_light", False)
        if light:
            # contents are a function of (s, sep): two evaluations of the
            # same split denote the same sequence
            arr = self.uni.uf("split_items", ["str", "str"],
                              "arr[str]")(recv.e, sep.e)
            n = self.uni.uf("split_len", ["str", "str"], "int")(recv.e, sep.e)
        else:
            arr = fresh("split_items", z3.ArraySort(INT, STR))
            n = fresh("split_len", INT)
        st.assume(n >= 1)
        self.set_list(lst, st, arr, n)
        i = z3.Int(fresh_name("i"))
        if not light:
            st.assume(z3.ForAll([i], z3.Implies(
                z3.And(0 <= i, i < n), z3.Not(z3.Contains(arr[i], sep.e))),
                patterns=[arr[i]]))
        if sep.e.eq(z3.StringVal("\n")) and "nonl" in self.uni.ufs:
            nonl = self.uni.ufs["nonl"]
            st.assume(z3.ForAll([i], z3.Implies(z3.And(0 <= i, i < n),
                                                nonl(arr[i])),
                                patterns=[arr[i]]))
        if light:
            # the recursion of join_prefix is instantiated by the property's
            # own spec hook at the indices that occur
            jp = self.uni.uf("join_prefix_a", ["arr[str]", "int"], "str")
            st.assume(jp(arr, 0) == z3.StringVal(""))
            st.assume(jp(arr, n) == z3.Concat(recv.e, sep.e))
            return lst
        jp = self.uni.uf("join_prefix", ["ref", "int"], "str")
        st.assume(jp(lst.e, 0) == z3.StringVal(""))
        st.assume(z3.ForAll([i], z3.Implies(
            z3.And(0 <= i, i < n),
            jp(lst.e, i + 1) == z3.Concat(jp(lst.e, i), arr[i], sep.e)),
            patterns=[jp(lst.e, i + 1)]))
        st.assume(jp(lst.e, n) == z3.Concat(recv.e, sep.e))
        return lst

    def str_strip(self, recv, name, st):
        """lstrip(): the suffix starting at the first non-whitespace
        character.  The position is a function nws(s) of the string so that
        repeated evaluations denote the same term."""
        s = recv.e
        n = z3.Length(s)
        ws = z3.Union(*[z3.Re(z3.StringVal(c)) for c in self.WS])
        if name == "lstrip":
            k = self.uni.uf("nws", ["str"], "int")(s)
            st.assume(z3.And(0 <= k, k <= n))
            st.assume(z3.InRe(z3.SubString(s, 0, k), z3.Star(ws)))
            st.assume(z3.Or(k == n, z3.Not(z3.InRe(z3.SubString(s, k, 1),
                                                   ws))))
            return VStr(z3.SubString(s, k, n - k))
        raise Unsupported(f"str.{name}()")
