"""C15 — copies of PSyIR subtrees are independent and equal.

Contracts on the real bodies of Node.copy, Node._refine_copy and
ScopingNode._refine_copy: the copy is a fresh node without parent, its
children are the copies of the original's children attached to it, nothing
of the original changes, tree updates are re-enabled, and inside a copied
scope every Reference / Loop variable that pointed at a symbol of the copied
table points at the copy's own symbol of the same name afterwards.
"""
import z3
from pyvc.interp import Contract, LoopSpec
from pyvc.values import (VRef, VFunc, VBool, VStr, NONE, Ref, STR, VExc,
                         VClass)
from pyvc.state import fresh, PyRaise

ID = "C15"
LEVEL = "proof"
ND = "psyir/nodes/node.py"
SN = "psyir/nodes/scoping_node.py"
NULLC = z3.Const("null", Ref)
BOOL = z3.BoolSort()
NODE_FIELDS = ["_parent", "_children", "_annotations",
               "_has_constructor_parent", "_disable_tree_update",
               "_symbol_table", "_symbol", "_variable"]


def build(uni):
    uni.list_classes["ChildrenList"] = "Node"
    uni.fields.update({
        "_parent": "Node", "_children": "ChildrenList",
        "_annotations": "list[str]", "_has_constructor_parent": "bool",
        "_disable_tree_update": "bool", "_symbol_table": "SymbolTable",
        "_symbol": "Symbol", "_variable": "Symbol", "_node": "Node",
        "_symbols": "dict[str,Symbol]", "_name": "str",
    })
    COPY = z3.Function("copy_of", Ref, Ref)        # child.copy()
    DC = z3.Function("deep_copy_of", Ref, Ref)     # table.deep_copy()
    WALK = z3.Function("walk_refs_and_loops", Ref, Ref)
    AL0 = z3.Const("H0_$alloc", z3.ArraySort(Ref, BOOL))
    x = z3.Const("ax", Ref)
    # results of the induction hypothesis / assumed callees are fresh,
    # non-null, pairwise distinct objects
    uni.axioms.append(z3.ForAll([x], z3.And(
        COPY(x) != NULLC, z3.Not(z3.Select(AL0, COPY(x)))),
        patterns=[COPY(x)]))
    y = z3.Const("ay", Ref)
    uni.axioms.append(z3.ForAll([x, y], z3.Implies(
        COPY(x) == COPY(y), x == y), patterns=[z3.MultiPattern(COPY(x), COPY(y))]))
    uni.axioms.append(z3.ForAll([x], z3.And(
        DC(x) != NULLC, z3.Not(z3.Select(AL0, DC(x)))), patterns=[DC(x)]))
    uni.axioms.append(z3.ForAll([x], z3.And(
        WALK(x) != NULLC, z3.Select(AL0, WALK(x))), patterns=[WALK(x)]))

    def h_child_copy(it, selfv, args, kw, st, fr):
        return VRef(COPY(selfv.e), "Node")

    def h_children(it, selfv, args, kw, st, fr):
        lst = it.getattr(VRef(selfv.e, "Obj"), "_children", st, fr)
        return lst

    def h_annotations(it, selfv, args, kw, st, fr):
        return it.getattr(VRef(selfv.e, "Obj"), "_annotations", st, fr)

    def construct_hook(it, cname, args, kw, st, fr):
        if cname == "ChildrenList":
            lst = it.alloc(st, "ChildrenList", "Node", "childrenlist")
            it.set_list(lst, st, z3.K(z3.IntSort(), NULLC), z3.IntVal(0))
            st.write("$owner", lst.e, args[0].e, "ref")
            return lst
        return None
    uni.construct_hook = construct_hook
    uni.heap_extra = {"$owner": "ref"}
    uni.list_classes["ChildrenList"] = "Node"

    def h_shallow_copy(it, a, kw, st, fr):
        """copy.copy(obj): a fresh object with every attribute equal"""
        src = a[0]
        new = it.alloc(st, src.cls, None, "shallow")
        for f in NODE_FIELDS:
            tag = uni.field_tag(f)
            st.write(f, new.e, st.read(f, src.e, tag), tag)
        from pyvc.common import TYPE_OF
        st.assume(TYPE_OF(new.e) == TYPE_OF(src.e))
        return new
    uni.copy_object_hook = h_shallow_copy
    uni.consts["COPY"] = VFunc("hook", fn=lambda it, a, k, st, fr: VRef(
        COPY(a[0].e), "Node"))
    uni.consts["DC"] = VFunc("hook", fn=lambda it, a, k, st, fr: VRef(
        DC(a[0].e), "SymbolTable"))
    uni.consts["WALK"] = VFunc("hook", fn=lambda it, a, k, st, fr: VRef(
        WALK(a[0].e), "list", "RefOrLoop"))
    uni.consts["lower"] = VFunc("uf", name="str_lower", argtags=["str"],
                                ret="str")
    uni.consts["isnew"] = VFunc("hook", fn=lambda it, a, k, st, fr: VBool(
        z3.And(a[0].e != NULLC, z3.Not(z3.Select(AL0, a[0].e)))))

    def h_extend(it, selfv, args, kw, st, fr):
        """ChildrenList.extend (its own contract is C14's) for items that
        are fresh objects: appends them and makes the list's owner their
        parent; objects that existed at entry keep their parent"""
        other = args[0]
        n0 = it.length(selfv, st)
        oitems, on = it.list_items(other, st), it.length(other, st)
        q = z3.Int("exq")
        it.oblige(fr, st, "callpre", "extend.items_are_fresh", z3.ForAll(
            [q], z3.Implies(z3.And(0 <= q, q < on),
                            z3.Not(z3.Select(AL0, z3.Select(oitems, q))))))
        it.contop(selfv, "extend", [other], {}, st, fr, builtin_only=True)
        owner = st.read("$owner", selfv.e, "ref")
        par = st.field("_parent", "ref")
        newpar = fresh("H__parent", par.sort())
        o = z3.Const("exo", Ref)
        st.assume(z3.ForAll([q], z3.Implies(
            z3.And(0 <= q, q < on),
            z3.Select(newpar, z3.Select(oitems, q)) == owner),
            patterns=[z3.Select(oitems, q)]))
        st.assume(z3.ForAll([o], z3.Implies(
            z3.Select(AL0, o), z3.Select(newpar, o) == z3.Select(par, o)),
            patterns=[z3.Select(newpar, o)]))
        st.heap["_parent"] = newpar
        return NONE
    uni.method_hooks.update({
        "Node.copy": h_child_copy,
        "Node.children": h_children,
        "Node.annotations": h_annotations,
        "ChildrenList.extend": h_extend,
    })
    uni.note_assumption(
        "induction hypothesis: child.copy() is a function COPY(child) whose "
        "results are fresh, non-null and pairwise distinct; ChildrenList."
        "extend is used through C14's contract (appends, owner becomes "
        "parent); copy.copy(node) makes a fresh object with equal "
        "attributes; SymbolTable.deep_copy() is an assumed fresh table whose "
        "symbols are fresh copies keyed by the same names; walk((Reference, "
        "Loop)) is a list that is a function of the node")
    cs = []
    # --------------------------------------------------------- _refine_copy
    c = Contract(
        f"{ND}:Node._refine_copy",
        params={"self": "Node", "other": "Node"},
        requires=[("wf", "other is not None and other is not self and "
                         "other._children is not None and "
                         "other._annotations is not None and "
                         "len(other._children) >= 0 and "
                         "forall(lambda q: implies(0 <= q and "
                         "q < len(other._children), "
                         "at(other._children, q) is not None and "
                         "at(other._children, q) is not self))")],
        ensures=[
            ("detached", "self._parent is None and "
                         "not self._has_constructor_parent"),
            ("own_children_list", "fresh(self._children) and "
                                  "self._children is not other._children"),
            ("children_are_copies",
             "len(self._children) == len(other._children) and "
             "forall(lambda q: implies(0 <= q and q < len(self._children), "
             "at(self._children, q) is COPY(at(other._children, q)) and "
             "at(self._children, q)._parent is self))"),
            ("own_annotations", "fresh(self._annotations)"),
            ("tree_updates_enabled", "not self._disable_tree_update"),
            ("original_links_kept",
             "other._parent is old(other._parent) and "
             "other._children is old(other._children) and "
             "len(other._children) == old(len(other._children))"),
            ("original_children_kept",
             "forall(lambda q: implies(0 <= q and q < len(other._children), "
             "at(other._children, q) is old(at(other._children, q))))"),
            ("original_children_parents_kept",
             "forall(lambda q: implies(0 <= q and "
             "q < old(len(other._children)), "
             "old(at(other._children, q))._parent is "
             "old(at(other._children, q)._parent)))"),
        ],
        raises={}, modifies=["_parent", "_children", "_annotations",
                             "_has_constructor_parent",
                             "_disable_tree_update", "$len", "$items.ref",
                             "$items.str", "$owner"],
        covers=[("some_children", "len(self._children) >= 2")])
    uni.contracts["Node._refine_copy"] = c
    cs.append(c)
    # ------------------------------------------------------------------ copy
    c = Contract(
        f"{ND}:Node.copy", params={"self": "Node"},
        requires=[("wf", "self._children is not None and "
                         "self._annotations is not None and "
                         "len(self._children) >= 0 and "
                         "forall(lambda q: implies(0 <= q and "
                         "q < len(self._children), "
                         "at(self._children, q) is not None))")],
        returns="Node",
        ensures=[
            ("fresh", "fresh(result) and result is not self"),
            ("detached", "result._parent is None"),
            ("children_are_copies",
             "len(result._children) == len(self._children) and "
             "forall(lambda q: implies(0 <= q and q < len(self._children), "
             "at(result._children, q) is COPY(at(self._children, q)) and "
             "at(result._children, q)._parent is result))"),
            ("original_untouched",
             "self._parent is old(self._parent) and "
             "self._children is old(self._children) and "
             "len(self._children) == old(len(self._children))"),
        ],
        raises={}, modifies=["_parent", "_children", "_annotations",
                             "_has_constructor_parent",
                             "_disable_tree_update", "$len", "$items.ref",
                             "$items.str", "$owner", "_symbol_table",
                             "_symbol", "_variable"],
        covers=[("ok", "True")])
    uni.contracts["Node.copy:top"] = c
    cs.append(c)
    # ---------------------------------------------- ScopingNode._refine_copy
    SYMS = z3.Function("symbols_of_table", Ref, Ref)

    def h_deep_copy(it, selfv, args, kw, st, fr):
        return VRef(DC(selfv.e), "SymbolTable")

    def h_symtab(it, selfv, args, kw, st, fr):
        return it.getattr(VRef(selfv.e, "Obj"), "_symbol_table", st, fr)

    def h_symbols(it, selfv, args, kw, st, fr):
        # list(self._symbols.values()) of the real property
        d = it.getattr(VRef(selfv.e, "Obj"), "_symbols", st, fr)
        from pyvc.values import VPy
        return VPy(("dictvalues", d))

    def h_lookup(it, selfv, args, kw, st, fr):
        d = it.getattr(VRef(selfv.e, "Obj"), "_symbols", st, fr)
        key = uni.uf("str_lower", ["str"], "str")(args[0].e)
        if not it.dec.branch(st, z3.Select(it.d_dom(d, st), key)):
            raise PyRaise(VExc("KeyError"))
        return VRef(z3.Select(it.d_map(d, st), key), "Symbol")

    def accessor(attr):
        def h(it, selfv, args, kw, st, fr):
            if args:                       # property setter
                st.write(attr, selfv.e, it.to_z3(args[0]), "ref")
                return NONE
            return it.getattr(VRef(selfv.e, "Obj"), attr, st, fr)
        return h

    def h_walk(it, selfv, args, kw, st, fr):
        lst = VRef(WALK(selfv.e), "list", "RefOrLoop")
        st.assume(it.length(lst, st) >= 0)
        q = z3.Int("wq")
        st.assume(z3.ForAll([q], z3.Implies(
            z3.And(0 <= q, q < it.length(lst, st)),
            z3.Select(it.list_items(lst, st), q) != NULLC)))
        return lst

    def h_name(it, selfv, args, kw, st, fr):
        return it.getattr(VRef(selfv.e, "Obj"), "_name", st, fr)
    uni.method_hooks.update({
        "SymbolTable.deep_copy": h_deep_copy,
        "ScopingNode.symbol_table": h_symtab,
        "SymbolTable.symbols": h_symbols,
        "SymbolTable.lookup": h_lookup,
        "Reference.symbol": accessor("_symbol"),
        "Loop.variable": accessor("_variable"),
        "Node.walk": h_walk,
        "Symbol.name": h_name,
    })
    uni.prop_hooks.update({"RefOrLoop.symbol": accessor("_symbol"),
                           "RefOrLoop.variable": accessor("_variable")})
    uni.preds.update({
        # the assumed contract of deep_copy: same keys, fresh symbols with
        # the same names
        "DCWF": (["t"], """
            DC(t)._symbols is not None and isnew(DC(t)._symbols) and
            forall(lambda k: (k in DC(t)._symbols) == (k in t._symbols),
                   'str') and
            forall(lambda k: implies(k in t._symbols,
                DC(t)._symbols[k] is not None and
                isnew(DC(t)._symbols[k]) and
                DC(t)._symbols[k]._name == t._symbols[k]._name), 'str')
            """),
        "TINV": (["t"], """
            t is not None and t._symbols is not None and
            forall(lambda k: implies(k in t._symbols,
                t._symbols[k] is not None and
                lower(t._symbols[k]._name) == k), 'str')
            """),
        "INTABLE": (["t", "s"], "exists(lambda k: k in t._symbols and "
                                "t._symbols[k] is s, 'str')"),
    })
    c = Contract(
        f"{SN}:ScopingNode._refine_copy",
        params={"self": "ScopingNode", "other": "ScopingNode"},
        requires=[("tables", "other is not None and other is not self and "
                             "TINV(other._symbol_table) and "
                             "DCWF(other._symbol_table)"),
                  ("walk", "forall(lambda q: implies(0 <= q and "
                           "q < len(WALK(self)), "
                           "implies(isinstance(at(WALK(self), q), Reference),"
                           " at(WALK(self), q)._symbol is not None) and "
                           "forall(lambda p: implies(0 <= p and p < q, "
                           "at(WALK(self), p) is not at(WALK(self), q)))))")],
        ensures=[
            ("own_table", "self._symbol_table is DC(other._symbol_table) and "
                          "self._symbol_table._node is self"),
            ("references_rebound",
             "forall(lambda q: implies(0 <= q and q < len(WALK(self)) and "
             "isinstance(at(WALK(self), q), Reference), "
             "ite(INTABLE(other._symbol_table, "
             "old(at(WALK(self), q)._symbol)), "
             "at(WALK(self), q)._symbol is self._symbol_table._symbols["
             "lower(old(at(WALK(self), q)._symbol._name))], "
             "at(WALK(self), q)._symbol is "
             "old(at(WALK(self), q)._symbol))))"),
            ("loop_variables_rebound",
             "forall(lambda q: implies(0 <= q and q < len(WALK(self)) and "
             "isinstance(at(WALK(self), q), Loop) and "
             "old(at(WALK(self), q)._variable) is not None and "
             "INTABLE(other._symbol_table, "
             "old(at(WALK(self), q)._variable)), "
             "at(WALK(self), q)._variable is self._symbol_table._symbols["
             "lower(old(at(WALK(self), q)._variable._name))]))"),
            ("original_table_untouched",
             "other._symbol_table is old(other._symbol_table) and "
             "select_dict(other._symbol_table._symbols) == "
             "old(select_dict(other._symbol_table._symbols))"),
        ],
        raises={}, modifies=["_symbol_table", "_node", "_symbol",
                             "_variable", "$dom.str", "$map.str.ref",
                             "$card"],
        covers=[("rebinds", "exists(lambda q: 0 <= q and "
                            "q < len(WALK(self)) and at(WALK(self), q)._symbol"
                            " is not old(at(WALK(self), q)._symbol))")])
    uni.contracts["ScopingNode._refine_copy"] = c
    def h_refine(it, selfv, args, kw, st, fr):
        # inside Node.copy the callee is used through its contract; the
        # super() call of ScopingNode._refine_copy is summarised as not
        # touching symbols, tables or the walked nodes' symbol links (the
        # base-class part is verified on its own above)
        if fr.func == "Node.copy":
            fn, _ = uni.repo.function(f"{ND}:Node._refine_copy")
            return it.call_by_contract(uni.contracts["Node._refine_copy"],
                                       fn, selfv, args, kw, st, fr)
        return NONE
    uni.method_hooks["Node._refine_copy"] = h_refine
    uni.loopspecs["ScopingNode._refine_copy"] = {0: LoopSpec(
        invariants=[
            ("table", "self._symbol_table is DC(other._symbol_table) and "
                      "self._symbol_table._node is self and "
                      "other._symbol_table is entry(other._symbol_table)"),
            ("dicts", "unchanged_since_head('$dom.str', '$map.str.ref', "
                      "'_name', '_symbols')"),
            ("done_refs",
             "forall(lambda q: implies(0 <= q and q < _k and "
             "isinstance(at(_iter, q), Reference), "
             "ite(INTABLE(other._symbol_table, "
             "entry(at(_iter, q)._symbol)), "
             "at(_iter, q)._symbol is self._symbol_table._symbols["
             "lower(entry(at(_iter, q)._symbol._name))], "
             "at(_iter, q)._symbol is entry(at(_iter, q)._symbol))))"),
            ("done_loops",
             "forall(lambda q: implies(0 <= q and q < _k and "
             "isinstance(at(_iter, q), Loop) and "
             "entry(at(_iter, q)._variable) is not None and "
             "INTABLE(other._symbol_table, entry(at(_iter, q)._variable)), "
             "at(_iter, q)._variable is self._symbol_table._symbols["
             "lower(entry(at(_iter, q)._variable._name))]))"),
            ("rest", "forall(lambda q: implies(_k <= q and q < len(_iter), "
                     "at(_iter, q)._symbol is entry(at(_iter, q)._symbol) and"
                     " at(_iter, q)._variable is "
                     "entry(at(_iter, q)._variable)))"),
            ("iter", "_iter is WALK(self)")],
        modifies=["_symbol", "_variable"])}
    cs.append(c)
    return cs


TRUSTED = [
    "pyvc VC generator and z3",
    "child.copy() as induction hypothesis; ChildrenList.extend via C14; "
    "copy.copy; SymbolTable.deep_copy assumed (fresh symbols, same names)",
    "NOT under contract: SymbolTable.deep_copy / Symbol.copy (the symbols a "
    "copied symbol's datatype, shape bounds and initial value refer to -- "
    "recorded known finding), _refine_copy overrides of other node classes, "
    "Node.__eq__ (structural equality of the copy)",
]
EXPLANATION = (
    "Node._refine_copy / Node.copy: the copy is fresh and detached, owns a "
    "new children list whose items are the copies of the original's "
    "children attached to the copy, the original and its children are "
    "untouched and tree updates are re-enabled; ScopingNode._refine_copy: "
    "the copy owns the deep-copied table and every Reference / Loop "
    "variable of the copied subtree that pointed at a symbol of the "
    "original's table points at the copy's symbol of the same name "
    "(loop invariant over the walk), all other references unchanged.")


def replay(name, ob, model, uni):
    from realise import C15 as R
    return R.search()


def replay_known(k, uni):
    from realise import C15 as R
    return R.known(k.get("id"))


def bounded(uni, tier, seed):
    from realise import C15 as R
    return R.search()


def extra(uni, tier, seed):
    from pyvc.runner import Extra
    from realise import C15 as R
    rp = R.search()
    return [Extra("bounded#copy-independence-runtime-contract",
                  not rp["confirmed"], str(rp)[:300],
                  kind="bounded run-time contract on real copies (fresh "
                       "nodes, references bound to the copy's symbols, "
                       "renames in one tree do not show in the other's "
                       "written code), outside the recorded known class",
                  replay=rp, count=rp.get("cases", 1), bounded=True)]
