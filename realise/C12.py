"""Realiser for C12: real CallTreeUtils.get_in_out_parameters on small
regions with hand-stated ground truth (which incoming values can be read,
which variables can be modified)."""

CASES = [
    # (name, declarations, region statements, must-be-inputs, must-be-outputs,
    #  input class)
    ("partial-first-write", "real :: a(10), b",
     "a(1) = 0.0\nb = a(2)", {"a"}, {"a", "b"}, "partial-first-write"),
    ("conditional-first-write", "real :: t, b, c",
     "if (c > 0.0) then\n t = 1.0\nend if\nb = t", {"t", "c"}, {"t", "b"},
     "partial-first-write"),
    ("read-then-write", "real :: a(10), b",
     "b = a(1)\na(2) = 1.0", {"a"}, {"a", "b"}, "other"),
    ("scalar-chain", "real :: t, b, x",
     "t = x\nb = t", {"x"}, {"t", "b"}, "other"),
    ("inc", "real :: s, x(10)\ninteger :: i",
     "do i = 1, 10\n s = s + x(i)\nend do", {"s", "x"}, {"s", "i"}, "other"),
    ("call-arg", "real :: p, q",
     "call sub(p, q)", {"p", "q"}, {"p", "q"}, "other"),
]


def check_case(decls, stmts):
    from psyclone.psyir.frontend.fortran import FortranReader
    from psyclone.psyir.nodes import Routine
    from psyclone.psyir.tools import CallTreeUtils
    code = (f"subroutine region()\n{decls}\n{stmts}\n"
            f"end subroutine region\n")
    psyir = FortranReader().psyir_from_source(code)
    routine = psyir.walk(Routine)[0]
    rwi = CallTreeUtils().get_in_out_parameters(routine.children)
    ins = {str(sig) for _, sig in rwi.read_list}
    outs = {str(sig) for _, sig in rwi.write_list}
    return ins, outs


def run(only_class=None):
    for name, decls, stmts, need_in, need_out, cls in CASES:
        if only_class and cls != only_class:
            continue
        ins, outs = check_case(decls, stmts)
        if not need_in <= ins:
            return {"confirmed": True, "input_class": cls,
                    "input": {"case": name, "region": stmts},
                    "observed": f"inputs reported {sorted(ins)}; the "
                    f"incoming value of {sorted(need_in - ins)} can be read"}
        if not need_out <= outs:
            return {"confirmed": True, "input_class": "outputs:" + cls,
                    "input": {"case": name, "region": stmts},
                    "observed": f"outputs reported {sorted(outs)}; "
                    f"{sorted(need_out - outs)} can be modified"}
    return {"confirmed": False}


def partial_first_write():
    rp = run("partial-first-write")
    return bool(rp.get("confirmed"))


PATTERNS = {"read": ["READ"], "write": ["WRITE"],
            "read-then-write": ["READ", "WRITE"],
            "write-then-read": ["WRITE", "READ"]}


def _access_info(sig, pattern):
    from psyclone.core import SingleVariableAccessInfo, AccessType
    from psyclone.psyir.nodes import Reference
    from psyclone.psyir.symbols import DataSymbol, REAL_TYPE
    svai = SingleVariableAccessInfo(sig)
    for loc, kind in enumerate(PATTERNS[pattern]):
        node = Reference(DataSymbol(str(sig), REAL_TYPE))
        svai.add_access_with_location(AccessType[kind], loc, node, None)
    return svai


def resolve_cases():
    """Work lists for the real CallTreeUtils._resolve_calls_and_unknowns made
    of plain variable accesses ('reference' records): one record, and every
    ordered pair of access patterns for the same (module, variable).  Ground
    truth: the variable must be reported as an output if some record writes
    it, and as an input if some record does not write it first.  Yields
    (case id, ok, detail)."""
    import itertools
    from psyclone.core import Signature
    from psyclone.psyir.tools import CallTreeUtils, ReadWriteInfo
    sig = Signature("tally")
    lists = [[p] for p in PATTERNS] + \
        [list(pq) for pq in itertools.permutations(PATTERNS, 2)]
    for pats in lists:
        infos = [_access_info(sig, p) for p in pats]
        work = [("reference", "tally_mod", sig, a) for a in infos]
        rwi = ReadWriteInfo()
        CallTreeUtils()._resolve_calls_and_unknowns(list(work), rwi)
        ins = {(m, str(s)) for m, s in rwi.read_list}
        outs = {(m, str(s)) for m, s in rwi.write_list}
        need_out = any(a.is_written() for a in infos)
        need_in = any(not a.is_written_first() for a in infos)
        key = ("tally_mod", "tally")
        ok = (not need_out or key in outs) and (not need_in or key in ins)
        yield ("+".join(pats), ok,
               f"work list of accesses to tally_mod::tally with patterns "
               f"{pats}: inputs {sorted(ins)}, outputs {sorted(outs)}; "
               f"needed as input: {need_in}, as output: {need_out}")


def run_resolve():
    for cid, ok, detail in resolve_cases():
        if not ok:
            return {"confirmed": True, "input": {"work_list": cid},
                    "observed": detail}
    return {"confirmed": False}
